"""MIR-lite loader and per-function analyses (CFG, dominators, loops, def-use, provenance)."""
import collections
import glob
import json
import os
import re

_ACB_PREFIX = re.compile(r'(?<![A-Za-z0-9_])acb::')


def short(name):
    """last path segment of a def path, generic arguments stripped"""
    n = re.sub(r'<[^<>]*>', '', name)
    while '<' in n and re.search(r'<[^<>]*>', n):
        n = re.sub(r'<[^<>]*>', '', n)
    return n.split('::')[-1]


def is_place(op):
    return op.get('k') in ('copy', 'move')


def op_local(op):
    return op['pl']['l'] if is_place(op) else None


def place_str(p):
    s = '_%d' % p['l']
    for e in p['p']:
        if e == '*':
            s = '(*%s)' % s
        elif isinstance(e, dict) and 'f' in e:
            s += '.' + e['f']
        elif isinstance(e, dict) and 'dc' in e:
            s += ' as ' + e['dc']
        elif isinstance(e, dict) and 'idx' in e:
            s += '[_%d]' % e['idx']
        else:
            s += '[%s]' % (e,)
    return s


def op_str(o):
    if is_place(o):
        return '%s %s' % (o['k'], place_str(o['pl']))
    if o['k'] == 'const':
        return 'const %s' % o['v']
    return '?'


def place_fields(p):
    """[(owner, field)] for the field projections of a place, outermost last"""
    return [(e['of'], e['f']) for e in p['p'] if isinstance(e, dict) and 'f' in e]


class Call:
    __slots__ = ('fn', 'bb', 't', 'callee', 'decl', 'short', 'args', 'dst', 'target', 'line', 'file', 'exp', 'gargs', 'inlined')

    def __init__(self, fn, bb, t):
        self.inlined = False      # True: kept for visibility in an inline_view; the callee's body is spliced in at this block
        self.fn = fn
        self.bb = bb
        self.t = t
        self.decl = t['callee']
        self.callee = t['resolved'] or t['callee']
        self.short = short(t['callee'])
        self.args = t['args']
        self.dst = t['dst']
        self.target = t['target']
        self.line = t['sp']['line']
        self.file = t['sp']['file']
        self.exp = t['sp']['exp']
        self.gargs = t['gargs']

    @property
    def in_macro(self):
        return self.exp.startswith('m:')

    def macro_is(self, *names):
        if not self.exp.startswith('m:'):
            return False
        ms = self.exp[2:].split(',')
        return any(m in names for m in ms)

    def arg_local(self, i):
        if i < len(self.args):
            return op_local(self.args[i])
        return None

    def arg_locals(self):
        return [op_local(a) for a in self.args if is_place(a)]

    def dst_local(self):
        return self.dst['l'] if not self.dst['p'] else None

    def names(self):
        """both the declared (trait) name and the resolved impl name"""
        return (self.decl, self.callee)

    def matches(self, pattern):
        return bool(re.search(pattern, self.decl) or re.search(pattern, self.callee))

    def where(self):
        return '%s:%d' % (self.file, self.line)

    def __repr__(self):
        return '<call %s @%s bb%d>' % (self.callee, self.where(), self.bb)


class Fn:
    def __init__(self, d, crate, name):
        self.d = d
        self.crate = crate
        self.name = name           # qualified (see Program)
        self.local_name = d['fn']
        self.kind = d.get('kind', '').split(' ')[0].split('{')[0]
        self.vis = d.get('vis', '')
        self.parent = d.get('parent', '')
        self.is_async = d.get('async', False)
        self.file = d['span']['file']
        self.line = d['span']['line']
        self.argc = d['argc']
        self.blocks = {b['bb']: b for b in d['blocks'] if not b['cleanup']}
        self.ty = {l['i']: l['ty'] for l in d['locals']}
        self.user = {l['i'] for l in d['locals'] if l['user']}
        self.varnames = {}
        for k, v in d['names'].items():
            nm, _ = k.rsplit('#', 1)
            if not v['p']:
                self.varnames.setdefault(v['l'], nm)
        self.upvar_names = {}
        for k, v in d['names'].items():
            nm, _ = k.rsplit('#', 1)
            if v['l'] == 1 and v['p']:
                fs = [e for e in v['p'] if isinstance(e, dict) and 'f' in e]
                if fs:
                    self.upvar_names[fs[0]['f']] = nm
        self.succ = {}
        for i, b in self.blocks.items():
            self.succ[i] = [s for s in self._succs(b) if s in self.blocks]
        self.pred = collections.defaultdict(list)
        for i, ss in self.succ.items():
            for s in ss:
                self.pred[s].append(i)
        self._dom = None
        self._pdom = None
        self._loops = None
        self._reach = {}
        self.defs = collections.defaultdict(list)   # local -> [(bb, idx, kind, node)] ; idx = stmt index or 'T'
        self.calls = []
        for i, b in self.blocks.items():
            for k, s in enumerate(b['stmts']):
                self.defs[s['dst']['l']].append((i, k, 'stmt', s))
            t = b['term']
            if t and t['t'] == 'call':
                self.defs[t['dst']['l']].append((i, 'T', 'call', t))
                self.calls.append(Call(self, i, t))
        self.calls.sort(key=lambda c: c.bb)
        self.call_at = {c.bb: c for c in self.calls}

    @staticmethod
    def _succs(b):
        t = b['term']
        if t is None:
            return []
        if t['t'] == 'call':
            return [t['target']] if t['target'] >= 0 else []
        if t['t'] == 'switch':
            out = []
            for x in t['targets']:
                if x[1] not in out:
                    out.append(x[1])
            if t['otherwise'] not in out:
                out.append(t['otherwise'])
            return out
        if t['t'] == 'falseEdge':
            # FalseEdge { real_target, imaginary_target }: only the real edge exists at run time
            return list(t.get('succ', []))[:1]
        return list(t.get('succ', []))

    # ---------------------------------------------------------------- CFG analyses
    @property
    def dom(self):
        if self._dom is None:
            self._dom = self._dominators(self.succ, self.pred, [0])
        return self._dom

    @property
    def exits(self):
        return [i for i, b in self.blocks.items() if b['term'] and b['term']['t'] in ('return', 'Return')]

    @property
    def pdom(self):
        if self._pdom is None:
            ex = self.exits
            self._pdom = self._dominators(self.pred, self.succ, ex)
        return self._pdom

    def _dominators(self, succ, pred, roots):
        nodes = list(self.blocks)
        # only nodes reachable from roots
        reach = set()
        st = list(roots)
        while st:
            x = st.pop()
            if x in reach or x not in self.blocks:
                continue
            reach.add(x)
            st.extend(succ.get(x, []))
        allr = set(reach)
        dom = {n: set(allr) for n in reach}
        for r in roots:
            if r in dom:
                dom[r] = {r}
        changed = True
        order = sorted(reach)
        while changed:
            changed = False
            for n in order:
                if n in roots:
                    continue
                ps = [dom[p] for p in pred.get(n, []) if p in dom]
                new = set.intersection(*ps) if ps else set()
                new = new | {n}
                if new != dom[n]:
                    dom[n] = new
                    changed = True
        return dom

    def dominates(self, a, b):
        return b in self.dom and a in self.dom[b]

    def postdominates(self, a, b):
        return b in self.pdom and a in self.pdom[b]

    def control_dependents(self, sw):
        """blocks whose execution is decided by the branch taken at block `sw` (Ferrante et al.: b post-dominates a
        successor of sw, and does not strictly post-dominate sw itself)"""
        out = set()
        for t in self.succ.get(sw, []):
            for b in self.blocks:
                if (b == t or self.postdominates(b, t)) and not (b != sw and self.postdominates(b, sw)):
                    out.add(b)
        return out

    def reachable_from(self, bb, avoid=()):
        key = (bb, tuple(sorted(avoid)))
        if key in self._reach:
            return self._reach[key]
        seen = set()
        st = list(self.succ.get(bb, []))
        while st:
            x = st.pop()
            if x in seen or x in avoid:
                continue
            seen.add(x)
            st.extend(self.succ.get(x, []))
        self._reach[key] = seen
        return seen

    def reachable_avoiding_edges(self, src, removed):
        """blocks reachable from src when the CFG edges in `removed` (set of (from, to)) are deleted"""
        seen = set()
        st = [src]
        while st:
            x = st.pop()
            if x in seen:
                continue
            seen.add(x)
            for y in self.succ.get(x, []):
                if (x, y) not in removed:
                    st.append(y)
        return seen

    def bool_switch_edges(self, bb):
        """(true_target, false_target) of a switch on a bool in block bb, or None"""
        t = self.blocks[bb]['term']
        if not t or t['t'] != 'switch':
            return None
        f = [tg for v, tg in t['targets'] if v == 0]
        if not f:
            return None
        return (t['otherwise'], f[0])

    def reaches(self, a, b, avoid=()):
        """is there a CFG path a -> ... -> b (length >= 1) not passing through `avoid`"""
        return b in self.reachable_from(a, avoid)

    @property
    def loops(self):
        """natural loops: list of (header, frozenset(body)), merged per header"""
        if self._loops is None:
            by_header = {}
            for n, ss in self.succ.items():
                for h in ss:
                    if n in self.dom and h in self.dom[n]:
                        body = {h}
                        st = [n]
                        while st:
                            x = st.pop()
                            if x not in body:
                                body.add(x)
                                st.extend(self.pred[x])
                        by_header.setdefault(h, set()).update(body)
            self._loops = [(h, frozenset(b)) for h, b in sorted(by_header.items())]
        return self._loops

    def loop_of(self, bb):
        best = None
        for h, body in self.loops:
            if bb in body and (best is None or len(body) < len(best[1])):
                best = (h, body)
        return best

    def loops_containing(self, bb):
        return sorted([(h, b) for h, b in self.loops if bb in b], key=lambda x: len(x[1]))

    def loop_exits(self, body):
        out = []
        for b in sorted(body):
            for s in self.succ[b]:
                if s not in body:
                    out.append((b, s))
        return out

    def is_unreachable_block(self, bb):
        t = self.blocks[bb]['term']
        return bool(t) and t['t'] == 'unreachable'

    def iterator_loops(self):
        """[(next_call, header, body)] for every `Iterator::next` call that drives a natural loop (innermost loop of the call)"""
        out = []
        for c in self.calls:
            if c.short == 'next' and c.decl.endswith('Iterator::next'):
                lp = self.loop_of(c.bb)
                if lp is not None:
                    out.append((c, lp[0], lp[1]))
        return out

    def _is_discr_of(self, operand, local):
        """operand is (a copy of) `discriminant(_local)` — the discriminant of the local itself, not of one of its fields"""
        seen = set()
        cur = op_local(operand)
        while cur is not None and cur not in seen:
            seen.add(cur)
            d = self.single_def(cur)
            if d is None:
                return False
            bb, idx, kind, node = d
            if kind != 'stmt':
                return False
            r = node['r']
            if r['rv'] == 'discr':
                return r['pl']['l'] == local and not r['pl']['p']
            if r['rv'] == 'use' and is_place(r['ops'][0]) and not r['ops'][0]['pl']['p']:
                cur = r['ops'][0]['pl']['l']
                continue
            return False
        return False

    def classify_loop_exits(self, next_call, body):
        """(exhaustion_edges, other_edges) of a loop driven by next_call; edges into `unreachable` blocks are dropped"""
        normal, other = [], []
        for (src, dst) in self.loop_exits(body):
            if self.is_unreachable_block(dst):
                continue
            t = self.blocks[src]['term']
            sw = None
            if t and t['t'] == 'falseEdge' and len(self.pred[src]) == 1:
                sw = self.blocks[self.pred[src][0]]['term']
            elif t and t['t'] == 'switch':
                sw = t
            if sw is not None and sw['t'] == 'switch' and self._is_discr_of(sw['discr'], next_call.dst['l']):
                normal.append((src, dst))
                continue
            other.append((src, dst))
        return normal, other

    # ---------------------------------------------------------------- edges / conditions
    def switch_edges(self):
        """yield (bb, discr_operand, value_or_None(for otherwise), target)"""
        for i, b in self.blocks.items():
            t = b['term']
            if t and t['t'] == 'switch':
                seen_t = set()
                for v, tg in t['targets']:
                    yield (i, t['discr'], v, tg)
                yield (i, t['discr'], None, t['otherwise'])

    def edge_dominates(self, src, dst, bb):
        """does every path from entry to bb go through the CFG edge src->dst?"""
        if bb == dst and len(self.pred[dst]) == 1:
            return True
        if not self.dominates(dst, bb):
            return False
        # dst must be entered only via src (or via back edges from blocks dominated by dst)
        for p in self.pred[dst]:
            if p == src:
                continue
            if self.dominates(dst, p):
                continue
            return False
        return True

    def conditions_at(self, bb):
        """list of (switch_bb, discr_operand, value|None, negated_values) that hold on every path to bb.
        value None means the `otherwise` edge: discr not in negated_values."""
        out = []
        for i, b in self.blocks.items():
            t = b['term']
            if not t or t['t'] != 'switch':
                continue
            tgts = {}
            for v, tg in t['targets']:
                tgts.setdefault(tg, []).append(v)
            allv = [v for v, _ in t['targets']]
            for tg, vs in tgts.items():
                if tg == t['otherwise']:
                    continue
                if self.edge_dominates(i, tg, bb):
                    out.append((i, t['discr'], vs, None))
            if t['otherwise'] not in tgts and self.edge_dominates(i, t['otherwise'], bb):
                out.append((i, t['discr'], None, allv))
        return out

    # ---------------------------------------------------------------- def-use helpers
    def single_def(self, local):
        ds = self.defs.get(local, [])
        whole = [d for d in ds if not d[3]['dst']['p']]
        if len(whole) == 1 and len(ds) == 1:
            return whole[0]
        return None

    def is_param(self, local):
        return 1 <= local <= self.argc

    def stmt_sources(self, s):
        r = s['r']
        out = []
        for o in r.get('ops', []):
            if is_place(o):
                out.append(o['pl'])
        if 'pl' in r:
            out.append(r['pl'])
        return out

    def uses_of(self, local):
        """[(bb, idx|'T', kind, node)] where `local` is read (as operand base, ref base, call arg, switch discr)"""
        out = []
        for i, b in self.blocks.items():
            for k, s in enumerate(b['stmts']):
                if any(p['l'] == local for p in self.stmt_sources(s)):
                    out.append((i, k, 'stmt', s))
                elif s['dst']['l'] == local and s['dst']['p']:
                    out.append((i, k, 'store', s))
            t = b['term']
            if not t:
                continue
            if t['t'] == 'call':
                if any(is_place(a) and a['pl']['l'] == local for a in t['args']):
                    out.append((i, 'T', 'call', t))
            elif t['t'] == 'switch':
                if is_place(t['discr']) and t['discr']['pl']['l'] == local:
                    out.append((i, 'T', 'switch', t))
            elif t['t'] == 'Drop':
                pass
        return out

    def where(self, node):
        sp = node['sp']
        return '%s:%d' % (sp['file'], sp['line'])

    def describe_local(self, l):
        return '_%d%s: %s' % (l, ('(%s)' % self.varnames[l]) if l in self.varnames else '', self.ty.get(l, '?')[:80])


# ------------------------------------------------------------------------------------------------
PASS_THROUGH = {
    # callee short names through which a value's identity is considered preserved (arg 0 -> result)
    'clone', 'deref', 'deref_mut', 'borrow', 'borrow_mut', 'as_ref', 'as_mut', 'to_owned', 'to_string',
    'as_str', 'as_slice', 'as_mut_slice', 'into', 'from', 'unwrap', 'expect', 'unwrap_or_default', 'ok', 'branch', 'from_residual',
    'from_output', 'into_iter', 'iter', 'iter_mut', 'as_deref', 'as_deref_mut', 'copied', 'cloned', 'to_vec', 'into_boxed_slice',
    'as_path', 'to_path_buf', 'as_os_str', 'into_future', 'new_unchecked', 'get_mut', 'get_unchecked_mut', 'map_err', 'ok_or', 'ok_or_else', 'unwrap_unchecked',
    'into_inner', 'as_bytes', 'index', 'index_mut', 'poll', 'get_context', 'new',
}


class Origins:
    """result of a backward provenance slice"""

    def __init__(self):
        self.params = set()      # param indices (1-based local numbers)
        self.consts = []         # (ty, value, def)
        self.calls = []          # Call objects whose result flows in (not followed further unless pass-through)
        self.fields = set()      # (owner adt, field) projections read on the way
        self.upvars = set()      # closure env field indices (as strings)
        self.locals = set()      # every local visited
        self.binops = []         # (op, stmt)
        self.unops = []          # (op, stmt)  Not / Neg / PtrMetadata
        self.aggs = []           # aggregate kinds
        self.casts = []
        self.downcasts = set()   # enum variant names projected on the way (e.g. 'Ok', 'Some')

    def call_names(self):
        return {c.callee for c in self.calls} | {c.decl for c in self.calls}

    def has_call(self, pattern):
        return any(c.matches(pattern) for c in self.calls)

    def summary(self):
        return {
            'params': sorted(self.params), 'consts': [c[1] for c in self.consts][:8],
            'calls': sorted({c.callee for c in self.calls})[:12], 'fields': sorted('%s.%s' % f for f in self.fields)[:12],
            'upvars': sorted(self.upvars),
        }


def forward_taint(fn, seeds, stop=None):
    """generous forward closure: every local that may carry data derived from the seed locals (through statements and
    through any call that receives a tainted argument). `stop(call)` -> True keeps a call's result untainted."""
    tainted = set(seeds)
    changed = True
    while changed:
        changed = False
        for i, b in fn.blocks.items():
            for s in b['stmts']:
                d = s['dst']['l']
                if d in tainted:
                    continue
                if any(p['l'] in tainted for p in fn.stmt_sources(s)):
                    tainted.add(d)
                    changed = True
                    if '*' in s['dst']['p']:
                        # a store through a pointer also taints what the pointer was borrowed from
                        for l in provenance(fn, d).locals:
                            tainted.add(l)
            t = b['term']
            if t and t['t'] == 'call':
                c = fn.call_at[i]
                d = c.dst['l']
                if d in tainted:
                    continue
                if any(a in tainted for a in c.arg_locals()):
                    if stop is not None and stop(c):
                        continue
                    tainted.add(d)
                    changed = True
                    # &mut receivers are written by the call as well
                    for a in c.arg_locals():
                        if a not in tainted and fn.ty.get(a, '').startswith('&mut'):
                            tainted.add(a)
    return tainted


def forward_taint_implicit(fn, seeds, stop=None):
    """forward_taint plus implicit flows: whatever is written in a block that runs or not depending on a branch over tainted
    data is tainted too. Returns (tainted locals, {block: deciding switch block})"""
    tainted = set(seeds)
    decided = {}
    while True:
        tainted = forward_taint(fn, tainted, stop)
        n0 = (len(tainted), len(decided))
        for i, b in fn.blocks.items():
            t = b['term']
            if t and t['t'] == 'switch' and is_place(t['discr']) and t['discr']['pl']['l'] in tainted:
                for d in fn.control_dependents(i):
                    decided.setdefault(d, i)
        for d in decided:
            b = fn.blocks[d]
            for s in b['stmts']:
                tainted.add(s['dst']['l'])
                if '*' in s['dst']['p']:
                    tainted.update(provenance(fn, s['dst']['l']).locals)
            c = fn.call_at.get(d)
            if c is not None:
                tainted.add(c.dst['l'])
                for a in c.arg_locals():
                    if fn.ty.get(a, '').startswith('&mut'):
                        tainted.add(a)
                        tainted.update(provenance(fn, a).locals)
        if (len(tainted), len(decided)) == n0:
            return tainted, decided


def provenance(fn, start, pass_through=PASS_THROUGH, follow_all_call_args=False, stop_calls=None, max_nodes=4000, skip_blocks=None):
    """Flow-insensitive backward slice from operand/place/local `start` inside `fn`.
    Follows copies, moves, refs, casts, aggregates, binops, field stores into the same base local, and
    calls whose short name is in `pass_through` (through every place argument). Other calls are recorded
    as origins and (unless follow_all_call_args) not followed."""
    org = Origins()
    work = []

    def push_place(pl):
        for (of, f) in place_fields(pl):
            org.fields.add((of, f))
        for e in pl['p']:
            if isinstance(e, dict) and 'dc' in e:
                org.downcasts.add(e['dc'])
        if pl['l'] == 1 and fn.kind in ('Closure', 'SyntheticCoroutineBody'):
            fs = [e for e in pl['p'] if isinstance(e, dict) and 'f' in e]
            if fs:
                org.upvars.add(fs[0]['f'])
        work.append(pl['l'])

    def push_op(o):
        if is_place(o):
            push_place(o['pl'])
        elif o.get('k') == 'const':
            org.consts.append((o['ty'], o['v'], o.get('def', '')))

    if isinstance(start, int):
        work.append(start)
    elif isinstance(start, dict) and 'k' in start:
        push_op(start)
    elif isinstance(start, dict) and 'l' in start:
        push_place(start)
    n = 0
    while work and n < max_nodes:
        l = work.pop()
        if l in org.locals:
            continue
        org.locals.add(l)
        n += 1
        if fn.is_param(l):
            org.params.add(l)
        for (bb, idx, kind, node) in fn.defs.get(l, []):
            if skip_blocks is not None and bb in skip_blocks:
                continue
            if kind == 'stmt':
                r = node['r']
                rv = r['rv']
                gb = node.get('ghost_bb')
                if gb is not None and gb in getattr(fn, 'ghost_at', {}):
                    org.calls.append(fn.ghost_at[gb])      # inline view: this value is the result of the spliced call
                if rv == 'binop':
                    org.binops.append((r['op'], node))
                if rv == 'unop':
                    org.unops.append((r['op'], node))
                if rv == 'agg':
                    org.aggs.append(r['kind'])
                if rv == 'cast':
                    org.casts.append(r['kind'])
                for o in r.get('ops', []):
                    push_op(o)
                if 'pl' in r:
                    push_place(r['pl'])
            else:
                c = fn.call_at[bb]
                if stop_calls and c.matches(stop_calls):
                    org.calls.append(c)
                    continue
                if c.short in pass_through:
                    org.calls.append(c)
                    for a in c.args:
                        push_op(a)
                else:
                    org.calls.append(c)
                    if follow_all_call_args:
                        for a in c.args:
                            push_op(a)
    return org



def _merge_cons(a, b):
    """union of two constraint dicts, or None when they contradict"""
    out = dict(a)
    for k, v in b.items():
        if out.get(k, v) != v:
            return None
        out[k] = v
    return out


def _not_val(v):
    if v is None:
        return None
    if v[0] == 'const':
        return ('const', not v[1])
    if v[0] == 'atom':
        return ('atom', v[1], not v[2])
    if v[0] == 'cases':
        return ('cases', [(c, not x) for c, x in v[1]])
    return None


# discriminant values of the std sum types that `?` and early returns are made of
_TAGS = {'Result::Ok': ('Result', 0), 'Result::Err': ('Result', 1), 'Option::None': ('Option', 0), 'Option::Some': ('Option', 1),
         'ControlFlow::Continue': ('ControlFlow', 0), 'ControlFlow::Break': ('ControlFlow', 1)}


def _flag_enum_variants(prog, crate, ty):
    a = prog.adts(crate).get(ty.lstrip('&'))
    if not a or a.get('kind') != 'Enum' or a.get('pub'):
        return None
    if any(v['fields'] for v in a['variants']):
        return None
    return [v['name'] for v in a['variants']]


def _is_flag_enum(prog, crate, ty):
    return bool(ty) and _flag_enum_variants(prog, crate, ty) is not None


def _variant_index(prog, crate, kind):
    # kind: path::Enum::Variant
    if '::' not in kind:
        return None
    ety, var = kind.rsplit('::', 1)
    vs = _flag_enum_variants(prog, crate, ety)
    return vs.index(var) if vs and var in vs else None


def variant_cases(prog, g, atom_of_call, depth=0):
    """Summary of a function that returns a private field-less enum: [(constraints over the atoms, variant index)], or None"""
    if depth > 3 or g is None:
        return None
    out = []
    for e in g.exits:
        res = symbolic_paths(g, 0, e, atom_of_call, prog=prog, want_ret=True, _depth=depth + 1)
        if res is None:
            return None
        for cons, val in res:
            if val is None:
                return None
            if val[0] == 'variant':
                out.append((cons, val[1]))
            elif val[0] == 'vcases':
                for cc, idx in val[1]:
                    c2 = _merge_cons(cons, cc)
                    if c2 is not None:
                        out.append((c2, idx))
            else:
                return None
    return out


def bool_cases(prog, g, atom_of_call, depth=0):
    """Summary of a bool-valued function or closure over the atoms: [(constraints, returned value)], one entry per feasible path,
    or None when some path returns a value that is not a function of the atoms."""
    if depth > 3 or g is None:
        return None
    out = []
    for e in g.exits:
        res = symbolic_paths(g, 0, e, atom_of_call, prog=prog, want_ret=True, _depth=depth + 1)
        if res is None:
            return None
        for cons, val in res:
            if val is None:
                return None
            if val[0] == 'const':
                out.append((cons, val[1]))
            elif val[0] == 'atom':
                for truth in (True, False):
                    c2 = _merge_cons(cons, {val[1]: truth})
                    if c2 is not None:
                        out.append((c2, truth if val[2] else not truth))
            elif val[0] == 'cases':
                for cc, x in val[1]:
                    c2 = _merge_cons(cons, cc)
                    if c2 is not None:
                        out.append((c2, x))
            else:
                return None
    return out


def _closure_fn_of(prog, fn, op):
    if not is_place(op) or op['pl']['p']:
        return None
    d = fn.single_def(op['pl']['l'])
    if d is None or d[2] != 'stmt':
        return None
    r = d[3]['r']
    if r['rv'] == 'use' and is_place(r['ops'][0]):
        return _closure_fn_of(prog, fn, r['ops'][0])
    if r['rv'] == 'agg' and r['kind'].startswith('closure:'):
        return prog.by_crate[fn.crate].get(r['kind'][len('closure:'):])
    return None


OPTION_BOOL_COMBINATORS = {'map_or': None, 'is_some_and': False, 'is_none_or': True}


def symbolic_paths(fn, src, dst, atom_of_call, avoid=(), max_paths=20000, prog=None, want_ret=False, _depth=0):
    """Enumerate the acyclic CFG paths src -> dst (not entering `avoid`), tracking boolean locals symbolically.
    `atom_of_call(fn, call)` names the calls whose result is an atom: return (id, 'bool') for a bool result, (id, 'option') for an
    Option result whose Some/None-ness is the atom, or None.  Materialised booleans (`x = !a`, `x = a || b` lowered to branches and
    copies, `let need = ...; if need`) are followed through copies, `Not` and constants, and infeasible edges are pruned.
    With `prog`, a call of a bool-valued function of the crate is replaced by its summary over the atoms (bool_cases), and
    `opt.map_or(b, |x| ..)` / `is_some_and` / `is_none_or` on an Option atom by the summary of the closure.
    Returns the list of constraint dicts {atom id: bool}, one per feasible path (with want_ret: (constraints, value of _0) pairs),
    or None when the bound is exceeded."""
    can = {dst}
    changed = True
    while changed:
        changed = False
        for b, ss in fn.succ.items():
            if b not in can and b not in avoid and any(x in can for x in ss):
                can.add(b)
                changed = True
    out = []
    count = [0]
    summaries = {}

    def summary(g):
        if g.name not in summaries:
            summaries[g.name] = bool_cases(prog, g, atom_of_call, _depth)
        return summaries[g.name]

    def step_block(i, env):
        b = fn.blocks[i]
        for st in b['stmts']:
            d = st['dst']
            if d['p']:
                continue
            r = st['r']
            val = None
            if r['rv'] == 'use':
                o = r['ops'][0]
                if o['k'] == 'const':
                    v = str(o.get('v'))
                    if v in ('true', 'false'):
                        val = ('const', v == 'true')
                elif is_place(o) and not o['pl']['p']:
                    val = env.get(o['pl']['l'])
                elif is_place(o) and len(o['pl']['p']) == 2 and isinstance(o['pl']['p'][0], dict) and 'dc' in o['pl']['p'][0] and \
                        isinstance(o['pl']['p'][1], dict) and o['pl']['p'][1].get('f') == '0':
                    # the payload of a tracked Ok(..) / Some(..) / Continue(..)
                    v = env.get(o['pl']['l'])
                    if v is not None and v[0] == 'tag':
                        val = v[3]
            elif r['rv'] == 'unop' and r.get('op') == 'Not':
                o = r['ops'][0]
                v = env.get(o['pl']['l']) if is_place(o) and not o['pl']['p'] else None
                val = _not_val(v)
            elif r['rv'] == 'discr' and not r['pl']['p']:
                v = env.get(r['pl']['l'])
                if v is not None and v[0] == 'opt':
                    val = ('discr', v[1])
                elif v is not None and v[0] in ('variant', 'vcases'):
                    val = ('v' + 'discr', v)
                elif v is not None and v[0] == 'tag':
                    val = ('vdiscr', ('variant', v[2]))
            elif r['rv'] == 'agg' and _TAGS.get(r['kind'].rsplit('::', 2)[-2] + '::' + r['kind'].rsplit('::', 1)[-1] if r['kind'].count('::') >= 2 else '') is not None \
                    and re.search(r'^adt:(std|core)::(result::Result|option::Option|ops::ControlFlow)::', r['kind']):
                # Ok(x) / Err(e) / Some(x) / None / Continue(x) / Break(r): which variant, and what is known about the payload
                fam, k = _TAGS[r['kind'].rsplit('::', 2)[-2] + '::' + r['kind'].rsplit('::', 1)[-1]]
                inner = None
                if r.get('ops') and is_place(r['ops'][0]) and not r['ops'][0]['pl']['p']:
                    inner = env.get(r['ops'][0]['pl']['l'])
                val = ('tag', fam, k, inner)
            elif r['rv'] == 'agg' and not r.get('ops') and r['kind'].startswith('adt:') and prog is not None:
                # a flag kept as a variant of a private field-less enum (`YearLoadState::NeedsLoad`): its index in the declaration
                vi = _variant_index(prog, fn.crate, r['kind'][4:])
                if vi is not None:
                    val = ('variant', vi)
            env[d['l']] = val
        t = b['term']
        if t and t['t'] == 'call':
            c = fn.call_at[i]
            if not c.dst['p']:
                a = atom_of_call(fn, c)
                val = None
                if a is not None:
                    val = ('atom', a[0], True) if a[1] == 'bool' else ('opt', a[0])
                elif prog is not None and _depth <= 3:
                    g = prog.resolve(c.callee, fn.crate)
                    if g is not None and g.kind in ('Fn', 'AssocFn') and g.ty.get(0) == 'bool':
                        cs = summary(g)
                        val = ('cases', cs) if cs else None
                    elif g is not None and g.kind in ('Fn', 'AssocFn') and _is_flag_enum(prog, fn.crate, g.ty.get(0, '')):
                        vc = variant_cases(prog, g, atom_of_call, _depth)
                        val = ('vcases', vc) if vc else None
                    elif c.short in OPTION_BOOL_COMBINATORS and re.search(r'option::Option', c.callee) and c.args and is_place(c.args[0]) \
                            and not c.args[0]['pl']['p']:
                        recv = env.get(c.args[0]['pl']['l'])
                        default = OPTION_BOOL_COMBINATORS[c.short]
                        if default is None and len(c.args) == 3 and c.args[1].get('k') == 'const' and str(c.args[1].get('v')) in ('true', 'false'):
                            default = str(c.args[1].get('v')) == 'true'
                        g2 = _closure_fn_of(prog, fn, c.args[-1])
                        if recv is not None and recv[0] == 'opt' and default is not None and g2 is not None:
                            cs2 = summary(g2)
                            if cs2:
                                cases = [({recv[1]: False}, default)]
                                for cc, x in cs2:
                                    m = _merge_cons(cc, {recv[1]: True})
                                    if m is not None:
                                        cases.append((m, x))
                                val = ('cases', cases)
                if val is None and c.short == 'branch' and c.decl.endswith('Try::branch') and c.args and is_place(c.args[0]) and not c.args[0]['pl']['p']:
                    v = env.get(c.args[0]['pl']['l'])
                    if v is not None and v[0] == 'tag' and v[1] in ('Result', 'Option'):
                        cont = (v[2] == 0) if v[1] == 'Result' else (v[2] == 1)
                        val = ('tag', 'ControlFlow', 0 if cont else 1, v[3] if cont else None)
                if val is None and fn.ty.get(c.dst['l']) == 'bool':
                    # any other bool-valued call: an anonymous atom of its own (its outcome is unknown but it is one value)
                    val = ('atom', 'anon:%s:bb%d' % (fn.name, i), True)
                env[c.dst['l']] = val

    def go(i, env, cons, seen):
        if count[0] > max_paths:
            return
        env = dict(env)
        cons = dict(cons)
        step_block(i, env)
        if i == dst:
            count[0] += 1
            out.append((cons, env.get(0)) if want_ret else cons)
            return
        t = fn.blocks[i]['term']
        edges = []
        if t and t['t'] == 'switch' and is_place(t['discr']) and not t['discr']['pl']['p']:
            v = env.get(t['discr']['pl']['l'])
            vals = [vv for vv, _ in t['targets']]
            for vv, tg in t['targets']:
                edges.append((tg, vv))
            edges.append((t['otherwise'], None))
            for (tg, vv) in edges:
                if tg not in can or tg in seen:
                    continue
                c2 = dict(cons)
                if v is not None:
                    if v[0] == 'const':
                        truth = (vv != 0) if vv is not None else (0 in vals)
                        if truth != v[1]:
                            continue
                    elif v[0] == 'atom':
                        truth = (vv != 0) if vv is not None else (0 in vals)
                        aval = truth if v[2] else (not truth)
                        if c2.get(v[1], aval) != aval:
                            continue
                        c2[v[1]] = aval
                    elif v[0] == 'discr':
                        if vv is not None:
                            aval = (vv == 1)
                        else:
                            aval = (0 in vals) and (1 not in vals)
                        if c2.get(v[1], aval) != aval:
                            continue
                        c2[v[1]] = aval
                    elif v[0] == 'vdiscr':
                        inner = v[1]
                        def edge_has(idx):
                            return (idx == vv) if vv is not None else (idx not in vals)
                        if inner[0] == 'variant':
                            if not edge_has(inner[1]):
                                continue
                        else:
                            for cc, idx in inner[1]:
                                if edge_has(idx):
                                    m = _merge_cons(c2, cc)
                                    if m is not None:
                                        go(tg, env, m, seen | {i})
                            continue
                    elif v[0] == 'cases':
                        truth = (vv != 0) if vv is not None else (0 in vals)
                        for cc, x in v[1]:
                            if x != truth:
                                continue
                            m = _merge_cons(c2, cc)
                            if m is not None:
                                go(tg, env, m, seen | {i})
                        continue
                go(tg, env, c2, seen | {i})
            return
        for tg in fn.succ.get(i, []):
            if tg in can and tg not in seen:
                go(tg, env, cons, seen | {i})

    import sys as _sys
    old = _sys.getrecursionlimit()
    _sys.setrecursionlimit(max(old, 10000))
    try:
        if src in can or src == dst:
            go(src, {}, {}, frozenset())
    finally:
        _sys.setrecursionlimit(old)
    if count[0] > max_paths:
        return None
    return out



# ------------------------------------------------------------------------------------------------
# Inlined views: the body of a function with its crate-local helpers spliced in, so that intra-procedural rules keep seeing
# one body when a block of it has been extracted into a helper function (the most common maintenance refactoring).
def _shift_place(pl, off):
    q = dict(pl)
    q['l'] = pl['l'] + off
    if pl['p']:
        q['p'] = [({'idx': e['idx'] + off} if isinstance(e, dict) and 'idx' in e else e) for e in pl['p']]
    return q


def _shift_op(o, off):
    if isinstance(o, dict) and 'pl' in o:
        q = dict(o)
        q['pl'] = _shift_place(o['pl'], off)
        return q
    return o


def _shift_rv(r, off):
    q = dict(r)
    if 'ops' in r:
        q['ops'] = [_shift_op(o, off) for o in r['ops']]
    if 'pl' in r:
        q['pl'] = _shift_place(r['pl'], off)
    return q


def _shift_block(b, loff, boff, ret_local, call_dst, call_target, call_sp, ghost_bb=None):
    nb = {'bb': b['bb'] + boff, 'cleanup': False, 'stmts': [], 'term': None}
    for st in b['stmts']:
        nb['stmts'].append({'dst': _shift_place(st['dst'], loff), 'r': _shift_rv(st['r'], loff), 'sp': st['sp']})
    t = b['term']
    if t is None:
        return nb
    k = t['t']
    if k == 'call':
        nt = dict(t)
        nt['args'] = [_shift_op(a, loff) for a in t['args']]
        nt['dst'] = _shift_place(t['dst'], loff)
        nt['target'] = t['target'] + boff if t['target'] >= 0 else -1
        m = re.match(r'^<indirect:_(\d+)>$', t['callee'])
        if m:
            nt['callee'] = '<indirect:_%d>' % (int(m.group(1)) + loff)
    elif k == 'switch':
        nt = dict(t)
        nt['discr'] = _shift_op(t['discr'], loff)
        nt['targets'] = [[v, tg + boff] for v, tg in t['targets']]
        nt['otherwise'] = t['otherwise'] + boff
    elif k in ('return', 'Return'):
        # the assignment standing for `dst = callee(..)`; `ghost_bb` names the block of the spliced call so that a backward slice
        # passing through here still records "result of callee" (rules recognise values by the function that produced them)
        nb['stmts'].append({'dst': call_dst, 'r': {'rv': 'use', 'ops': [{'k': 'move', 'pl': {'l': ret_local, 'p': []}}]}, 'sp': call_sp,
                            'ghost_bb': ghost_bb})
        nt = {'t': 'goto', 'succ': [call_target] if call_target >= 0 else [], 'sp': t['sp']}
        if call_target < 0:
            nt = {'t': 'unreachable', 'succ': [], 'sp': t['sp']}
    else:
        nt = dict(t)
        if 'succ' in t:
            nt['succ'] = [x + boff for x in t['succ']]
        if 'pl' in t:
            nt['pl'] = _shift_place(t['pl'], loff)
        if 'cond' in t:
            nt['cond'] = _shift_op(t['cond'], loff)
    nb['term'] = nt
    return nb


def _scalar_replace(prog, fn, blocks, locals_, names):
    """Scalar replacement of a local state struct on the spliced view. A local of a private struct type of the crate that is only
    built, accessed field by field, borrowed for methods that were spliced in (`step.apply_buy(..)`), or moved as a whole into another
    such local, is replaced by one variable per field, named `<var>.<field>` and marked as a user variable — so that rules which
    speak about "the variable holding the new cost base" see one again when the working values were regrouped into a struct."""
    adts = prog.adts(fn.crate)
    ty_of = {l['i']: l['ty'] for l in locals_}
    argc = fn.argc
    def struct_fields(ty):
        a = adts.get(ty)
        if not a or a.get('kind') != 'Struct' or len(a['variants']) != 1:
            return None
        return [(f['name'], f['ty']) for f in a['variants'][0]['fields']]
    cands = {i for i, t in ty_of.items() if i > argc and i != 0 and struct_fields(t) and not adts[t].get('pub')}
    if not cands:
        return blocks, locals_, names
    # collect uses
    def places_of_stmt(st):
        out = [('dst', st['dst'])]
        r = st['r']
        for o in r.get('ops', []):
            if isinstance(o, dict) and 'pl' in o:
                out.append(('op', o['pl']))
        if 'pl' in r:
            out.append(('rpl', r['pl']))
        return out
    ptr_of = {}          # pointer local -> struct local (p = &mut S)
    alias = {}           # whole-value copies: x -> S
    changed = True
    bad = set()
    def root(x):
        while x in alias:
            x = alias[x]
        return x
    # pass 1: pointers and aliases (iterate to a fixpoint over simple copies)
    for _ in range(6):
        for b in blocks:
            for st in b['stmts']:
                r = st['r']
                d = st['dst']
                if d['p']:
                    continue
                if r['rv'] == 'ref' and not r['pl']['p'] and root(r['pl']['l']) in cands:
                    ptr_of[d['l']] = root(r['pl']['l'])
                elif r['rv'] == 'ref' and r['pl']['p'] == ['*'] and r['pl']['l'] in ptr_of:
                    ptr_of[d['l']] = ptr_of[r['pl']['l']]
                elif r['rv'] == 'use' and r['ops'] and isinstance(r['ops'][0], dict) and 'pl' in r['ops'][0] and not r['ops'][0]['pl']['p']:
                    src = r['ops'][0]['pl']['l']
                    if src in ptr_of:
                        ptr_of[d['l']] = ptr_of[src]
                    elif root(src) in cands and ty_of.get(d['l']) == ty_of.get(root(src)) and d['l'] != root(src) and d['l'] > argc and d['l'] != 0:
                        alias[d['l']] = root(src)
    members = {}         # struct local -> set of locals that stand for it (itself, aliases)
    for x in list(alias):
        members.setdefault(root(x), set()).add(x)
    for c in cands:
        if c not in alias:
            members.setdefault(c, set()).add(c)
    owner = {x: c for c, xs in members.items() for x in xs}
    # pass 2: every use must be of an accepted form
    def first_field(p):
        return p and isinstance(p[0], dict) and 'f' in p[0]
    for b in blocks:
        for st in b['stmts']:
            r = st['r']
            for kind, pl in places_of_stmt(st):
                l = pl['l']
                if l in owner:
                    c = owner[l]
                    if not pl['p']:
                        whole_ok = (kind == 'dst' and (r['rv'] == 'agg' and r['kind'].startswith('adt:' + ty_of[c]) or
                                                       (r['rv'] == 'use' and r['ops'] and isinstance(r['ops'][0], dict) and 'pl' in r['ops'][0] and
                                                        not r['ops'][0]['pl']['p'] and r['ops'][0]['pl']['l'] in owner))) or \
                                   (kind == 'op' and r['rv'] == 'use' and not st['dst']['p'] and st['dst']['l'] in owner) or \
                                   (kind == 'rpl' and r['rv'] == 'ref')
                        if not whole_ok:
                            bad.add(c)
                    elif not first_field(pl['p']):
                        bad.add(c)
                elif l in ptr_of:
                    c = ptr_of[l]
                    if not pl['p']:
                        ok_ptr = (kind == 'dst') or (kind == 'op' and r['rv'] == 'use' and not st['dst']['p'] and st['dst']['l'] in ptr_of)
                        if not ok_ptr:
                            bad.add(c)
                    elif not (pl['p'][0] == '*' and (len(pl['p']) == 1 and kind == 'rpl' and r['rv'] == 'ref' or (len(pl['p']) > 1 and first_field(pl['p'][1:])))):
                        bad.add(c)
        t = b['term']
        if t:
            ops = []
            if t['t'] == 'call':
                ops = [a['pl'] for a in t['args'] if isinstance(a, dict) and 'pl' in a] + [t['dst']]
            elif t['t'] == 'switch' and isinstance(t['discr'], dict) and 'pl' in t['discr']:
                ops = [t['discr']['pl']]
            for pl in ops:
                l = pl['l']
                if l in owner and not (pl['p'] and first_field(pl['p'])):
                    bad.add(owner[l])
                if l in ptr_of and not (len(pl['p']) > 1 and pl['p'][0] == '*' and first_field(pl['p'][1:])):
                    bad.add(ptr_of[l])
    good = {c for c in members if c not in bad}
    if not good:
        return blocks, locals_, names
    # new locals
    next_local = max(l['i'] for l in locals_) + 1
    var_name = {}
    for k, v in names.items():
        if not v['p']:
            var_name.setdefault(v['l'], k.rsplit('#', 1)[0])
    fld = {}
    new_locals = list(locals_)
    new_names = dict(names)
    for c in sorted(good):
        named = sorted((x for x in members[c] if x in var_name), key=lambda x: ('.' in var_name[x], x))
        base = var_name.get(c) or (var_name[named[0]] if named else 'state')
        for (fname, fty) in struct_fields(ty_of[c]):
            fld[(c, fname)] = next_local
            new_locals.append({'i': next_local, 'ty': fty, 'user': True})
            new_names['%s.%s#%d' % (base, fname, next_local)] = {'l': next_local, 'p': []}
            next_local += 1
    def rw_place(pl):
        l, p = pl['l'], pl['p']
        if l in owner and owner[l] in good and p and first_field(p):
            q = dict(pl)
            q['l'] = fld[(owner[l], p[0]['f'])]
            q['p'] = p[1:]
            return q
        if l in ptr_of and ptr_of[l] in good and len(p) > 1 and p[0] == '*' and first_field(p[1:]):
            q = dict(pl)
            q['l'] = fld[(ptr_of[l], p[1]['f'])]
            q['p'] = p[2:]
            return q
        return pl
    def rw_op(o):
        if isinstance(o, dict) and 'pl' in o:
            q = dict(o)
            q['pl'] = rw_place(o['pl'])
            return q
        return o
    out_blocks = []
    for b in blocks:
        nb = dict(b)
        nst = []
        for st in b['stmts']:
            r, d = st['r'], st['dst']
            # whole-struct initialisation: one assignment per field
            if not d['p'] and d['l'] in owner and owner[d['l']] in good and r['rv'] == 'agg' and r['kind'].startswith('adt:' + ty_of[owner[d['l']]]):
                for fname, o in zip(r.get('fields', []), r['ops']):
                    if (owner[d['l']], fname) in fld:
                        nst.append({'dst': {'l': fld[(owner[d['l']], fname)], 'p': []}, 'r': {'rv': 'use', 'ops': [rw_op(o)]}, 'sp': st['sp']})
                continue
            # whole moves between the locals standing for one struct, and `p = &mut S`: nothing left to do
            if not d['p'] and ((d['l'] in owner and owner[d['l']] in good) or (d['l'] in ptr_of and ptr_of[d['l']] in good)) and r['rv'] in ('use', 'ref'):
                continue
            q = dict(st)
            q['dst'] = rw_place(d)
            rr = dict(r)
            if 'ops' in r:
                rr['ops'] = [rw_op(o) for o in r['ops']]
            if 'pl' in r:
                rr['pl'] = rw_place(r['pl'])
            q['r'] = rr
            nst.append(q)
        nb['stmts'] = nst
        t = b['term']
        if t and t['t'] == 'call':
            nt = dict(t)
            nt['args'] = [rw_op(a) for a in t['args']]
            nt['dst'] = rw_place(t['dst'])
            nb['term'] = nt
        elif t and t['t'] == 'switch':
            nt = dict(t)
            nt['discr'] = rw_op(t['discr'])
            nb['term'] = nt
        out_blocks.append(nb)
    return out_blocks, new_locals, new_names


def inline_view(prog, fn, should_inline=None, max_depth=3, max_blocks=6000):
    """A Fn object with the same name as `fn` whose body contains the bodies of the crate-local functions it calls
    (recursively, up to max_depth), parameters bound by copies and `return` turned into an assignment to the call's destination.
    `should_inline(caller_fn, callee_fn)` defaults to: same source file or same module, ordinary (non-closure) function."""
    if getattr(fn, '_inline_view', None) is not None and should_inline is None:
        return fn._inline_view

    def default_pred(caller, g):
        return g.kind in ('Fn', 'AssocFn') and (g.file == fn.file or g.name.rsplit('::', 2)[0] == fn.name.rsplit('::', 2)[0])
    pred = should_inline or default_pred
    d = fn.d
    blocks = [dict(b, stmts=list(b['stmts'])) for b in d['blocks'] if not b['cleanup']]
    locals_ = list(d['locals'])
    names = dict(d['names'])
    next_local = max(l['i'] for l in locals_) + 1
    next_bb = max(b['bb'] for b in d['blocks']) + 1
    inlined = []
    inlined_fns = []
    ghosts = []
    spliced_params = set()
    work = [(b, (fn.name,), 0, None) for b in blocks]
    by_bb = {b['bb']: b for b in blocks}
    while work:
        b, stack, depth, self_ty = work.pop()
        t = b['term']
        if not t or t['t'] != 'call' or depth >= max_depth or len(by_bb) > max_blocks:
            continue
        # a trait method called on a concrete type — `Trait::m::<Buy>` from ordinary code, or `Trait::m::<Self>` inside a provided
        # method that is itself being spliced for a concrete Self: the impl's method if there is one, else the provided body
        g = None
        recv_ty = (t.get('gargs') or [None])[0]
        if recv_ty == 'Self':
            recv_ty = self_ty
        if not t.get('resolved') and recv_ty and '::' in t['callee'] and not t['callee'].startswith('<'):
            tr, meth = t['callee'].rsplit('::', 1)
            g = prog.resolve('<%s as %s>::%s' % (recv_ty, tr, meth), fn.crate)
        if g is None:
            g = prog.resolve(t['resolved'] or t['callee'], fn.crate) or prog.resolve(t['callee'], fn.crate)
        if g is None or g.name in stack or g.crate != fn.crate or not pred(fn, g) or len(g.blocks) > 600 or g.argc != len(t['args']):
            continue
        next_self = recv_ty if (recv_ty and not g.name.startswith('<')) else None
        loff, boff = next_local, next_bb
        gl = g.d['locals']
        next_local += max(l['i'] for l in gl) + 1
        next_bb += max(x['bb'] for x in g.d['blocks']) + 1
        for l in gl:
            locals_.append({'i': l['i'] + loff, 'ty': l['ty'], 'user': l['user']})
        for k, v in g.d['names'].items():
            nm, _ = k.rsplit('#', 1)
            names['%s.%s#%d' % (short(g.name), nm, v['l'] + loff)] = _shift_place(v, loff)
        # bind parameters
        for ai, a in enumerate(t['args']):
            b['stmts'].append({'dst': {'l': loff + 1 + ai, 'p': []}, 'r': {'rv': 'use', 'ops': [a]}, 'sp': t['sp']})
            spliced_params.add(loff + 1 + ai)
        new_blocks = []
        for gb in g.d['blocks']:
            if gb['cleanup']:
                continue
            nb = _shift_block(gb, loff, boff, loff, t['dst'], t['target'], t['sp'], ghost_bb=b['bb'])
            new_blocks.append(nb)
            by_bb[nb['bb']] = nb
        b['term'] = {'t': 'goto', 'succ': [boff + 0], 'sp': t['sp'], 'inlined_call': t['callee']}
        ghosts.append((b['bb'], t))
        blocks.extend(new_blocks)
        inlined.append(g.name)
        inlined_fns.append(g)
        for nb in new_blocks:
            work.append((nb, stack + (g.name,), depth + 1, next_self))
    if inlined and os.environ.get('VERIF_NO_SROA') != '1':
        try:
            blocks, locals_, names = _scalar_replace(prog, fn, blocks, locals_, names)
        except Exception as e:        # the pass is an optional refinement of the view: never the reason a check cannot complete
            if os.environ.get('VERIF_DEBUG_SROA'):
                raise
    nd = dict(d, blocks=blocks, locals=locals_, names=names)
    view = Fn(nd, fn.crate, fn.name)
    view.inlined = inlined
    view.inlined_fns = inlined_fns
    view.spliced_params = spliced_params      # parameters of spliced callees: plain copies of the arguments at the call
    view.origin = fn
    # the calls that were spliced stay visible (who-calls-whom rules, walks into the callee): listed in .calls, marked .inlined,
    # but not a definition of their destination — the spliced body assigns it
    view.ghost_at = {}
    for bb, t in ghosts:
        c = Call(view, bb, t)
        c.inlined = True
        view.calls.append(c)
        view.ghost_at[bb] = c
    view.calls.sort(key=lambda c: c.bb)
    if should_inline is None:
        fn._inline_view = view
    return view



def chain_filters(prog, closure_fn):
    """the `filter` predicates an item has passed before it reaches `closure_fn` (a closure handed to map / for_each / filter_map /
    any adaptor further down the same iterator chain): [(filter call, predicate closure Fn)]"""
    out = []
    for (parent, hc, ai) in handed_to(prog, closure_fn):
        if ai < 1 or not (hc.decl.startswith('std::iter::') or hc.decl.startswith('std::option::Option::')):
            continue
        org = provenance(parent, hc.args[0], follow_all_call_args=False, pass_through=PASS_THROUGH | {
            'map', 'filter', 'take_while', 'into_iter', 'iter', 'iter_mut', 'enumerate', 'rev', 'peekable', 'inspect', 'copied', 'cloned', 'by_ref'})
        for x in org.calls:
            # an item that got past `filter(p)` or `take_while(p)` satisfies p (the same holds for the payload of Option::filter)
            if (x.decl.endswith('Iterator::filter') or x.decl.endswith('Iterator::take_while') or
                    re.search(r'^std::option::Option::<.*>::filter$', x.decl)) and len(x.args) > 1:
                g = _closure_fn_of(prog, parent, x.args[1])
                if g is not None:
                    out.append((x, g))
    return out


def filter_guarantees(prog, closure_fn, atom_of_call):
    """{atom id: bool} — the atoms that have one fixed truth value on every path of every preceding filter predicate that keeps the
    item (returns true).  `atom_of_call(fn, call)` as for symbolic_paths; the caller makes sure its atoms speak about the item."""
    fixed = {}
    for (x, g) in chain_filters(prog, closure_fn):
        cases = bool_cases(prog, g, atom_of_call)
        if not cases:
            continue
        keep = [c for c, v in cases if v is True]
        if not keep:
            continue
        for a in set().union(*[set(c) for c in keep]):
            vals = {c.get(a) for c in keep}
            if len(vals) == 1 and None not in vals:
                fixed[a] = vals.pop()
    return fixed


def origins_with_captures(prog, owner, g, operand, follow_all_call_args=False):
    """(fields, calls) an operand of g derives from; when g is a closure of `owner`, captured variables are followed into owner
    (matched by variable name)"""
    x = provenance(g, operand, follow_all_call_args=follow_all_call_args)
    fields, calls = set(x.fields), list(x.calls)
    if g is not owner and x.upvars:
        for u in x.upvars:
            nm = g.upvar_names.get(u)
            for l, n in owner.varnames.items():
                if n == nm:
                    y = provenance(owner, l, follow_all_call_args=follow_all_call_args)
                    fields |= y.fields
                    calls += y.calls
    return fields, calls


def const_operands(f):
    """the constant operands of a body (statement operands and call arguments)"""
    for b in f.blocks.values():
        for st in b['stmts']:
            for o in st['r'].get('ops', []):
                if isinstance(o, dict) and o.get('k') == 'const':
                    yield o
        t = b['term']
        if t and t['t'] == 'call':
            for o in t['args']:
                if o.get('k') == 'const':
                    yield o


def direct_closure_calls(prog, closure_fn):
    """[(parent Fn, call, [argument operands])] — the places where a local closure is called by name in the function that defines it
    (`let f = |a, b| ..; f(x, y)`): the operands of the argument tuple, in parameter order (parameter 2 of the closure body is the first)"""
    parent = prog.by_crate[closure_fn.crate].get(closure_fn.parent)
    if parent is None:
        return []
    locs = {st['dst']['l'] for b in parent.blocks.values() for st in b['stmts']
            if st['r']['rv'] == 'agg' and st['r']['kind'] == 'closure:' + closure_fn.name and not st['dst']['p']}
    out = []
    for c in parent.calls:
        if c.short not in ('call', 'call_mut', 'call_once') or len(c.args) != 2 or not is_place(c.args[1]):
            continue
        if not (set(provenance(parent, c.args[0]).locals) | {c.arg_local(0)}) & locs:
            continue
        tup = parent.single_def(c.args[1]['pl']['l'])
        if tup and tup[2] == 'stmt' and tup[3]['r']['rv'] == 'agg' and tup[3]['r']['kind'] == 'tuple':
            out.append((parent, c, list(tup[3]['r']['ops'])))
    return out


def handed_to(prog, closure_fn):
    """[(parent Fn, call, argument position)] — the calls of the parent that receive the closure `closure_fn` as an argument
    (e.g. the iterator adapter it is the predicate / mapper of)"""
    parent = prog.by_crate[closure_fn.crate].get(closure_fn.parent)
    if parent is None:
        return []
    locs = {st['dst']['l'] for b in parent.blocks.values() for st in b['stmts']
            if st['r']['rv'] == 'agg' and st['r']['kind'] == 'closure:' + closure_fn.name and not st['dst']['p']}
    # the closure may sit in a variable first (`let f = |..| ..; iter.map(f)`): follow plain moves / copies of it
    grew = True
    while grew:
        grew = False
        for b in parent.blocks.values():
            for st in b['stmts']:
                r = st['r']
                if r['rv'] == 'use' and not st['dst']['p'] and st['dst']['l'] not in locs and r['ops'] and is_place(r['ops'][0]) and \
                        not r['ops'][0]['pl']['p'] and r['ops'][0]['pl']['l'] in locs:
                    locs.add(st['dst']['l'])
                    grew = True
    out = []
    for c in parent.calls:
        for i, a in enumerate(c.args):
            if is_place(a) and not a['pl']['p'] and a['pl']['l'] in locs:
                out.append((parent, c, i))
    return out


def owner_local_of_upvar(prog, fn, operand):
    """For an operand of a closure body that is (a borrow of) a captured variable: (owner Fn, local of that variable in the owner).
    Captures are matched by variable name. Returns (None, None) when the operand is not a capture."""
    if fn.kind not in ('Closure', 'SyntheticCoroutineBody'):
        return None, None
    o = provenance(fn, operand)
    names = {fn.upvar_names.get(u) for u in o.upvars} - {None}
    if len(names) != 1:
        return None, None
    nm = names.pop()
    owner = prog.by_crate[fn.crate].get(fn.parent)
    guard = 0
    while owner is not None and guard < 4:
        guard += 1
        for l, n in owner.varnames.items():
            if n == nm:
                return owner, l
        if owner.kind in ('Closure', 'SyntheticCoroutineBody'):
            # captured again one level up
            owner = prog.by_crate[owner.crate].get(owner.parent)
        else:
            break
    return None, None


def nearest_user_local(fn, operand):
    """the user variable (or parameter) an operand borrows / copies from, following refs, copies and Deref only"""
    cur = op_local(operand) if isinstance(operand, dict) and 'k' in operand else operand
    seen = set()
    while cur is not None and cur not in seen:
        seen.add(cur)
        if cur in fn.user or fn.is_param(cur):
            return cur
        d = fn.single_def(cur)
        if d is None:
            return None
        bb, idx, kind, node = d
        if kind == 'stmt':
            r = node['r']
            if r['rv'] in ('ref', 'rawptr'):
                cur = r['pl']['l']
            elif r['rv'] == 'use' and is_place(r['ops'][0]):
                cur = r['ops'][0]['pl']['l']
            else:
                return None
        else:
            c = fn.call_at[bb]
            if c.short in ('deref', 'deref_mut', 'as_slice', 'as_mut_slice', 'iter', 'iter_mut', 'into_iter', 'borrow', 'borrow_mut', 'as_ref', 'as_mut'):
                cur = c.arg_local(0)
            else:
                return None
    return None


def expr_leaves(fn, operand, max_nodes=200, through=()):
    """walk the expression that computes `operand`, through compiler temporaries only: stops at user variables and
    parameters (except the single-assignment `let` bindings listed in `through`, e.g. `let at = i + 1`). Returns (user_locals,
    consts, binop_names, calls)."""
    users, consts, ops, calls = set(), [], [], []
    work = [operand]
    seen = set()
    n = 0
    while work and n < max_nodes:
        o = work.pop()
        n += 1
        if not is_place(o):
            if o.get('k') == 'const':
                consts.append(o.get('v', ''))
            continue
        l = o['pl']['l']
        if (l in fn.user or fn.is_param(l)) and not (l in through and fn.single_def(l) is not None) and \
                not (l in getattr(fn, 'spliced_params', ()) and not o['pl']['p'] and fn.single_def(l) is not None and
                     fn.single_def(l)[2] == 'stmt' and fn.single_def(l)[3]['r']['rv'] == 'use'):
            users.add(l)
            continue
        if l in seen:
            continue
        seen.add(l)
        for (bb, idx, kind, node) in fn.defs.get(l, []):
            if kind == 'stmt':
                r = node['r']
                if r['rv'] == 'binop':
                    ops.append(r['op'])
                for x in r.get('ops', []):
                    work.append(x)
                if 'pl' in r:
                    work.append({'k': 'copy', 'pl': r['pl']})
            else:
                c = fn.call_at[bb]
                calls.append(c)
                for x in c.args:
                    work.append(x)
    return users, consts, ops, calls


def deep_origins(prog, fn, start, depth=3, _seen=None, follow_all=True):
    """provenance that continues through parameters into every product caller's argument and through closure /
    coroutine captures into the parent's captured operand. Returns a merged Origins (params = unresolved roots)."""
    _seen = _seen if _seen is not None else set()
    org = provenance(fn, start, follow_all_call_args=follow_all)
    out = Origins()
    out.fields |= org.fields
    out.calls += org.calls
    out.consts += org.consts
    out.binops += org.binops
    out.unops += org.unops
    out.downcasts |= org.downcasts
    out.locals |= {(fn.name, l) for l in org.locals}
    if depth <= 0:
        out.params |= {(fn.name, p) for p in org.params}
        return out
    # a closure handed on the way (`opt.map_or_else(zero, |x| f(x))`): what it returns is part of the value
    for kind in org.aggs:
        if kind.startswith('closure:'):
            g2 = prog.by_crate[fn.crate].get(kind[len('closure:'):])
            if g2 is not None and (g2.name, 0) not in _seen:
                _seen.add((g2.name, 0))
                _merge(out, deep_origins(prog, g2, 0, depth - 1, _seen, follow_all))
    is_clos = fn.kind in ('Closure', 'SyntheticCoroutineBody')
    for p in org.params:
        if is_clos and p == 1:
            continue
        key = (fn.name, p)
        if key in _seen:
            continue
        _seen.add(key)
        if is_clos:
            # the argument of a closure handed to an iterator / Option adaptor is an item of the receiver
            hs = [(par, hc) for (par, hc, ai) in handed_to(prog, fn) if ai >= 1 and
                  (hc.decl.startswith('std::iter::') or re.search(r'^std::(option::Option|result::Result)', hc.decl))]
            if hs:
                for par, hc in hs:
                    _merge(out, deep_origins(prog, par, hc.args[0], depth - 1, _seen, follow_all))
                continue
        callers = [c for c in prog.callers.get(fn.name, []) if not is_testsupport(c.fn.name)]
        if not callers:
            out.params.add(key)
        for c in callers:
            if p - 1 < len(c.args):
                sub = deep_origins(prog, c.fn, c.args[p - 1], depth - 1, _seen, follow_all)
                _merge(out, sub)
    if is_clos and org.upvars:
        parent = prog.by_crate[fn.crate].get(fn.parent)
        if parent is not None:
            for b in parent.blocks.values():
                for s in b['stmts']:
                    if s['r']['rv'] == 'agg' and s['r']['kind'].split(':', 1)[-1] == fn.local_name:
                        for n, o in enumerate(s['r']['ops']):
                            if str(n) in org.upvars:
                                sub = deep_origins(prog, parent, o, depth - 1, _seen, follow_all)
                                _merge(out, sub)
    return out


def _merge(a, b):
    a.fields |= b.fields
    a.calls += b.calls
    a.consts += b.consts
    a.binops += b.binops
    a.unops += b.unops
    a.downcasts |= b.downcasts
    a.locals |= b.locals
    a.params |= b.params


# ------------------------------------------------------------------------------------------------
class Program:
    def __init__(self, facts_dir):
        self.facts_dir = facts_dir
        self.fns = {}            # qualified name -> Fn
        self.by_crate = collections.defaultdict(dict)
        self.meta = {}           # crate -> meta dict
        self.unsafe_blocks = {}
        self.stolen = []
        self.files = []
        for f in sorted(glob.glob(os.path.join(facts_dir, '*.jsonl'))):
            base = os.path.basename(f)
            if base.startswith('build_script'):
                continue
            self.files.append(base)
            with open(f) as fh:
                for line in fh:
                    crate_m = re.match(r'\{"(?:crate|meta)":"([^"]+)"', line)
                    crate = crate_m.group(1) if crate_m else ''
                    if crate != 'acb':
                        line = _ACB_PREFIX.sub('', line)
                    d = json.loads(line)
                    if 'meta' in d:
                        self.meta[d['meta']] = d
                    elif 'unsafe_blocks' in d:
                        self.unsafe_blocks[d['crate']] = d['unsafe_blocks']
                    elif 'stolen' in d:
                        self.stolen.append((d['crate'], d['stolen']))
                    else:
                        name = d['fn'] if crate == 'acb' else '@%s::%s' % (crate, d['fn'])
                        fn = Fn(d, crate, name)
                        self.fns[name] = fn
                        self.by_crate[crate][d['fn']] = fn
        self._callers = None
        self._impls = None

    def inlined(self):
        """A second view of the same program in which every ordinary product function of the acb crates carries the bodies of the
        same-file / same-module functions it calls (inline_view); so do closure and coroutine bodies. Constants and test support are
        left as they are.  The view only adds: the spliced calls stay listed (Call.inlined) and closures_of covers the closures of the
        spliced callees, so whatever a rule can see on the program as written it can also see here."""
        import copy
        q = copy.copy(self)
        q.fns = dict(self.fns)
        q.by_crate = collections.defaultdict(dict)
        for c, m in self.by_crate.items():
            q.by_crate[c] = dict(m)
        q._callers = None
        q.is_inlined_view = True
        for name, f in self.fns.items():
            if f.kind in ('Fn', 'AssocFn', 'Closure', 'SyntheticCoroutineBody') and not is_testsupport(name) and f.crate.startswith('acb'):
                try:
                    v = inline_view(self, f)
                except Exception:
                    continue
                if v.inlined:
                    q.fns[name] = v
                    q.by_crate[f.crate][f.local_name] = v
        return q

    # ---------------------------------------------------------------- look-ups
    def crates(self):
        return sorted(self.by_crate)

    def fn(self, name):
        """the function with this definition path; when it is gone, the one product function of the acb crate with the same final
        name (a public function keeps its name when it is moved to another module; its definition path does not)"""
        f = self.fns.get(name)
        if f is not None or name.startswith('<') or '::' not in name:
            return f
        last = name.rsplit('::', 1)[1]
        if last.startswith('{'):
            return None
        key = ('moved', name)
        cache = self.__dict__.setdefault('_fn_fallback', {})
        if key not in cache:
            owner = name.rsplit('::', 2)[-2] if name.count('::') >= 2 else ''
            cands = [g for n, g in self.fns.items() if n.endswith('::' + last) and g.kind in ('Fn', 'AssocFn') and g.crate.startswith('acb') and
                     not is_testsupport(n)]
            # an associated function keeps its type: `Type::name`
            if owner and owner[:1].isupper():
                cands = [g for g in cands if g.name.endswith('::%s::%s' % (owner, last))]
            cache[key] = cands[0] if len(cands) == 1 else None
        return cache[key]

    def resolve(self, callee, from_crate):
        """Fn for a callee def path as seen from `from_crate`, or None for external items"""
        f = self.by_crate.get(from_crate, {}).get(callee)
        if f is not None:
            return f
        return self.by_crate.get('acb', {}).get(callee)

    def find(self, pattern, crate=None):
        rx = re.compile(pattern)
        return [f for n, f in sorted(self.fns.items()) if rx.search(n) and (crate is None or f.crate == crate)]

    def product_fns(self):
        """all analysed bodies except explicit test-support modules"""
        return [f for n, f in sorted(self.fns.items()) if not is_testsupport(n) and f.kind not in ('Const', 'AssocConst', 'Static')]

    def all_calls(self, product_only=True):
        for f in (self.product_fns() if product_only else self.fns.values()):
            for c in f.calls:
                yield c

    @property
    def callers(self):
        """callee qualified name -> [Call]; closures are attributed to their own body (use owner_of)"""
        if self._callers is None:
            m = collections.defaultdict(list)
            for f in self.fns.values():
                for c in f.calls:
                    for nm in set(c.names()):
                        tgt = self.resolve(nm, f.crate)
                        if tgt is not None:
                            m[tgt.name].append(c)
            self._callers = m
        return self._callers

    def owner_of(self, fn):
        """enclosing named fn of a closure / coroutine body"""
        cur = fn
        guard = 0
        while cur is not None and cur.kind in ('Closure', 'SyntheticCoroutineBody') and guard < 10:
            guard += 1
            nxt = self.by_crate[cur.crate].get(cur.parent)
            if nxt is None:
                break
            cur = nxt
        return cur

    def closures_of(self, fn):
        """bodies nested (transitively) in fn"""
        pres = [fn.local_name + '::{'] + [h.local_name + '::{' for h in getattr(fn, 'inlined_fns', [])]
        return [g for g in self.by_crate[fn.crate].values() if any(g.local_name.startswith(pre) for pre in pres) and g is not fn]

    def body_group(self, fn):
        """fn plus its nested closures / coroutine bodies"""
        return [fn] + self.closures_of(fn)

    def adts(self, crate='acb'):
        return {a['name']: a for a in self.meta.get(crate, {}).get('adts', [])}

    def impls(self):
        out = []
        for crate, m in self.meta.items():
            for i in m.get('impls', []):
                out.append((crate, i))
        return out

    def field_type(self, of, f):
        """declared type of field `f` of ADT (or Adt::Variant) `of`, searched in all analysed crates"""
        if not hasattr(self, '_ftypes'):
            self._ftypes = {}
            for crate, m in self.meta.items():
                for a in m.get('adts', []):
                    for v in a['variants']:
                        for fl in v['fields']:
                            self._ftypes[(a['name'], fl['name'])] = fl['ty']
                            self._ftypes[(a['name'] + '::' + v['name'], fl['name'])] = fl['ty']
        return self._ftypes.get((of, f))

    def place_type(self, fn, pl):
        """best-effort type of a place: the declared type of its last field projection, else the local's type"""
        fs = [e for e in pl['p'] if isinstance(e, dict) and 'f' in e]
        if fs:
            last = pl['p'][-1]
            if isinstance(last, dict) and 'f' in last:
                t = self.field_type(last['of'], last['f'])
                if t is not None:
                    return t
            return None
        if pl['p']:
            return None
        return fn.ty.get(pl['l'])

    def sigs(self, crate='acb'):
        return {f['name']: f for f in self.meta.get(crate, {}).get('fns', [])}

    def trait_impl_methods(self, trait, method):
        """all Fn bodies implementing `trait::method` in analysed crates"""
        out = []
        for crate, i in self.impls():
            if i['trait'] == trait:
                for it in i['items']:
                    if short(it) == method:
                        f = self.by_crate[crate].get(it)
                        if f is not None:
                            out.append(f)
        return out

    def callees_closure(self, roots, crate_local_only=True, max_depth=50):
        """set of Fn reachable from roots through resolved calls and nested closures"""
        seen = {}
        st = [(r, 0) for r in roots]
        while st:
            f, d = st.pop()
            if f.name in seen or d > max_depth:
                continue
            seen[f.name] = f
            for g in self.closures_of(f):
                st.append((g, d + 1))
            for c in f.calls:
                for nm in set(c.names()):
                    tgt = self.resolve(nm, f.crate)
                    if tgt is not None:
                        st.append((tgt, d + 1))
                # dyn / trait-object calls: all impls of the trait method
                if not c.t['resolved'] or c.t['resolved'] == c.t['callee']:
                    tr = c.decl.rsplit('::', 1)[0]
                    for g in self.trait_impl_methods(tr, c.short):
                        st.append((g, d + 1))
            # functions used as values: `iter.map(helper)`, `let f: fn(..) = if c { a } else { b }` — reachable through the pointer
            for o in const_operands(f):
                dfn = o.get('def')
                if dfn:
                    tgt = self.resolve(dfn, f.crate)
                    if tgt is not None and tgt.kind in ('Fn', 'AssocFn'):
                        st.append((tgt, d + 1))
        return seen


TESTSUPPORT = [
    r'(^|::)testlib::', r'(^|::)pub_testlib::', r'::set_todays_date_for_test', r'^testlib$', r'(^|::)test_util',
]
_TS = [re.compile(p) for p in TESTSUPPORT]


def is_testsupport(name):
    return any(r.search(name) for r in _TS)


def show(fn, with_macros=False, out=None):
    import sys
    out = out or sys.stdout
    w = out.write
    w('FN %s [%s] %s:%d kind=%s vis=%s\n' % (fn.name, fn.crate, fn.file, fn.line, fn.kind, fn.vis))
    for l in sorted(fn.ty):
        if l <= fn.argc or l in fn.user:
            w('  local %s\n' % fn.describe_local(l))
    for i in sorted(fn.blocks):
        b = fn.blocks[i]
        w(' bb%d:\n' % i)
        for s in b['stmts']:
            if s['sp']['exp'].startswith('m:') and not with_macros:
                continue
            r = s['r']
            desc = r['rv']
            if 'ops' in r:
                desc += ' ' + ', '.join(op_str(o) for o in r['ops'])
            if 'pl' in r:
                desc += ' ' + place_str(r['pl']) + (' mut' if r.get('mut') else '')
            if 'kind' in r:
                desc += ' ' + r['kind']
            if 'op' in r:
                desc += ' ' + r['op']
            w('    %s = %s   @%d %s\n' % (place_str(s['dst']), desc, s['sp']['line'], s['sp']['exp']))
        t = b['term']
        if t is None:
            continue
        if t['t'] == 'call':
            if t['sp']['exp'].startswith('m:') and not with_macros:
                w('    <macro %s call %s> -> bb%d\n' % (t['sp']['exp'], t['callee'][:70], t['target']))
            else:
                w('    %s = CALL %s [%s] (%s) -> bb%d  @%d %s\n' % (
                    place_str(t['dst']), t['callee'], t['resolved'], ', '.join(op_str(a) for a in t['args']),
                    t['target'], t['sp']['line'], t['sp']['exp']))
        elif t['t'] == 'switch':
            w('    SWITCH %s %s else bb%d\n' % (op_str(t['discr']), t['targets'], t['otherwise']))
        else:
            w('    %s -> %s\n' % (t['t'], t.get('succ')))


if __name__ == '__main__':
    import sys
    sys.path.insert(0, os.path.dirname(os.path.abspath(__file__)))
    import facts
    prog = Program(facts.ensure('default'))
    pat = sys.argv[1]
    for f in prog.find(pat):
        show(f, with_macros=len(sys.argv) > 2)
