#!/usr/bin/env python3
"""Entry point: ./check <ID> [--tier quick|thorough] [--replay FILE] [--repo DIR]

Decides the statically decidable clauses of property <ID> (see DESIGN.md section 5) on the current
working tree of /repo. Exit 0: every obligation discharged (or listed as a known finding);
exit 1: `VIOLATION property=<ID> replay=<path>` for every violation not listed in known_findings.json.
"""
import argparse
import importlib
import json
import os
import re
import sys
import time
import traceback

HERE = os.path.dirname(os.path.abspath(__file__))
VERIF = os.path.dirname(HERE)
sys.path.insert(0, HERE)

import facts  # noqa: E402
import mir  # noqa: E402

OK, REVIEWED, VIOLATION, INFO = 'discharged', 'discharged-by-review', 'violation', 'info'


class Ob:
    """one obligation (rule instance) and its verdict"""

    def __init__(self, rule, key, status, where='', fn='', detail='', trivial=False, config=None):
        self.rule = rule
        self.key = key
        self.status = status
        self.where = where
        self.fn = fn
        self.detail = detail
        self.trivial = trivial
        self.config = config

    def to_json(self):
        d = {'rule': self.rule, 'key': self.key, 'verdict': self.status, 'where': self.where, 'fn': self.fn,
             'detail': self.detail}
        if self.config:
            d['config'] = self.config
        return d


class AnchorLost(Exception):
    pass


class Report:
    def __init__(self, pid):
        self.pid = pid
        self.obs = []
        self.anchors = {}
        self.notes = []
        self.extra = {}

    def ob(self, rule, key, status, where='', fn='', detail='', trivial=False):
        key = '%s|%s|%s' % (self.pid, rule, key)
        o = Ob(rule, key, status, where, fn, detail, trivial)
        self.obs.append(o)
        return o

    def ok(self, rule, key, **kw):
        return self.ob(rule, key, OK, **kw)

    def violation(self, rule, key, **kw):
        return self.ob(rule, key, VIOLATION, **kw)

    def reviewed(self, rule, key, **kw):
        return self.ob(rule, key, REVIEWED, **kw)

    def info(self, rule, key, **kw):
        return self.ob(rule, key, INFO, **kw)

    def anchor(self, name, value):
        """record a resolved anchor; a falsy value means the anchor is lost -> fail closed"""
        if not hasattr(self, 'anchor_marks'):
            self.anchor_marks = []
        self.anchor_marks.append((name, len(self.obs)))      # what is emitted from here on (until the next anchor) stands behind this anchor
        if not value:
            self.anchors[name] = None
            self.violation('anchor', 'anchor-lost:' + name, detail='anchor lost: %s — the structural guarantee can no longer be '
                           're-established from the source (item renamed, moved or removed)' % name)
            return None
        if isinstance(value, (list, tuple, set)):
            self.anchors[name] = sorted(getattr(v, 'name', str(v)) for v in value)
        else:
            self.anchors[name] = getattr(value, 'name', str(value))
        return value


class ReviewedTable(dict):
    """reviewed entries by key. A key names one function and one construct in it; when that function has been moved to another
    module (same name, same construct, different definition path) the entry still applies: look-ups fall back to the key with
    the lower-case module segments of its paths removed."""
    @staticmethod
    def norm(key):
        return re.sub(r'(?<![A-Za-z0-9_:>])(?:[a-z_][a-z0-9_]*::)+(?=[A-Za-z_<{@])', '', key)

    def __init__(self, entries):
        super().__init__(entries)
        self._by_norm = {}
        for k, v in entries.items():
            self._by_norm.setdefault(self.norm(k), []).append(k)

    def _resolve(self, key):
        if dict.__contains__(self, key):
            return key
        c = self._by_norm.get(self.norm(key), [])
        return c[0] if len(c) == 1 else None

    def __contains__(self, key):
        return self._resolve(key) is not None

    def __getitem__(self, key):
        return dict.__getitem__(self, self._resolve(key))

    def get(self, key, default=None):
        k = self._resolve(key)
        return dict.__getitem__(self, k) if k is not None else default


def load_reviewed(name):
    p = os.path.join(VERIF, 'rules', name)
    if not os.path.exists(p):
        return ReviewedTable({})
    with open(p) as f:
        data = json.load(f)
    return ReviewedTable({e['key']: e for e in data['entries']})


def load_known():
    p = os.path.join(VERIF, 'known_findings.json')
    if not os.path.exists(p):
        return []
    with open(p) as f:
        return json.load(f).get('findings', [])


PROPS = {
    'C01': 'c01', 'C03': 'c03', 'C15': 'c15', 'C10': 'c10', 'C17': 'c17', 'C19': 'c19',
    'C02': 'c02', 'C04': 'c04', 'C05': 'c05', 'C06': 'c06', 'C07': 'c07', 'C08': 'c08', 'C09': 'c09',
    'C11': 'c11', 'C12': 'c12', 'C13': 'c13', 'C14': 'c14', 'C16': 'c16', 'C18': 'c18', 'C20': 'c20',
}


def run_property(pid, prog, config, tier):
    mod = importlib.import_module('props.' + PROPS[pid])
    rep = Report(pid)
    mod.run(prog, rep, tier=tier, config=config)
    if any(o.status == VIOLATION for o in rep.obs) and os.environ.get('VERIF_NO_INLINED_VIEW') != '1':
        rep = second_opinion(pid, mod, prog, rep, tier, config)
    for o in rep.obs:
        o.config = config
    return rep, mod


def second_opinion(pid, mod, prog, rep, tier, config):
    """A rule is violated only if it is violated on the program as written AND on the same program with helper functions
    spliced into their callers (mir.Program.inlined). Both are the same program; the second view lets intra-procedural rules
    keep seeing one body after a block has been extracted into a helper (or an anchor function has been split).  The second view
    only adds visibility (spliced calls stay listed, closures of spliced callees are reachable).  A violation of the
    plain view stands unless the second view discharges the obligation with the same key (and reports no other violation of
    that rule in that function); a lost anchor of a rule stands unless the second view has obligations of that rule and none is
    violated;
    rules that did not run on the plain view take their verdict from the second view; if the second view loses a function-level
    anchor the plain view had, nothing is discharged."""
    try:
        progb = prog.inlined()
        repb = Report(pid)
        mod.run(progb, repb, tier=tier, config=config)
    except Exception:
        traceback.print_exc()
        return rep
    ran_a = {}
    for o in rep.obs:
        ran_a.setdefault(o.rule, []).append(o)
    ran_b = {}
    for o in repb.obs:
        ran_b.setdefault(o.rule, []).append(o)
    keys_a_viol = {o.key for o in rep.obs if o.status == VIOLATION}
    keys_b_viol = {o.key for o in repb.obs if o.status == VIOLATION}
    # the second view must have got at least as far as the first: an anchor it loses that the first view found makes it unusable
    b_degraded = any(o.rule == 'anchor' and o.status == VIOLATION and o.key not in keys_a_viol for o in repb.obs)
    out = []
    resolved = []
    for o in rep.obs:
        if o.status != VIOLATION:
            out.append(o)
            continue
        if b_degraded:
            out.append(o)
            continue
        if o.rule == 'anchor':
            # a function-level anchor: found on the second view, which then ran the rules behind it
            if o.key in keys_b_viol or any(x.rule == 'anchor' and x.status == VIOLATION for x in repb.obs):
                out.append(o)
            else:
                resolved.append(o)
            continue
        b = ran_b.get(o.rule) or []
        if 'anchor-lost' in o.key:
            # the rule found nothing to judge on the plain view: the second view found its sites and none of them is violated
            if b and not any(x.status == VIOLATION for x in b):
                resolved.append(o)
            else:
                out.append(o)
                # ... or the second view found the sites and something wrong at them: say what (the lost anchor alone names no construct)
                for x in b:
                    if x.status == VIOLATION and x.key not in keys_a_viol and 'anchor-lost' not in x.key and x.key not in {y.key for y in out}:
                        x.detail = '[on the view with helper functions inlined] ' + (x.detail or '')
                        out.append(x)
            continue
        # an ordinary violation: the same obligation (same key) is discharged on the second view, and the second view reports
        # no other violation of that rule in that function (site ordinals may shift between the views)
        # (a hash-ordered loop names the offending effect in its key: the obligation is the loop)
        base = lambda k: re.sub(r'\|effect\d+:.*$', '', k)
        same = [x for x in b if base(x.key) == base(o.key)]
        if same and all(x.status != VIOLATION for x in same) and not any(x.status == VIOLATION and x.fn == o.fn for x in b):
            resolved.append(o)
        else:
            out.append(o)
    for o in resolved:
        out.append(Ob(o.rule, o.key, OK, where=o.where, fn=o.fn, trivial=True,
                      detail='reported on the function as written, discharged on the view with helper functions inlined: ' + (o.detail or '')[:160]))
    # a function-level anchor that was found again on the second view: what the second view judged behind it (the obligations it
    # emitted between that anchor and the next one) is carried over — including violations
    have = {o.key for o in out} | {o.key for o in resolved}
    marks_b = getattr(repb, 'anchor_marks', [])
    for o in resolved:
        if o.rule != 'anchor':
            continue
        nm = o.key.split('anchor-lost:', 1)[-1]
        for i, (n2, pos) in enumerate(marks_b):
            if n2 != nm:
                continue
            end = marks_b[i + 1][1] if i + 1 < len(marks_b) else len(repb.obs)
            for x in repb.obs[pos:end]:
                if x.key not in have and x.rule != 'anchor':
                    have.add(x.key)
                    x.detail = '[on the view with helper functions inlined] ' + (x.detail or '')
                    out.append(x)
    # a rule whose lost anchor was found again on the second view is judged there: carry its obligations over
    have = {o.key for o in out}
    for o in resolved:
        if 'anchor-lost' in o.key and o.rule != 'anchor':
            for x in ran_b.get(o.rule, []):
                if x.key not in have:
                    have.add(x.key)
                    x.detail = '[on the view with helper functions inlined] ' + (x.detail or '')
                    out.append(x)
    # rules that could not run on the plain view
    for rule, obs_b in ran_b.items():
        if rule in ran_a or rule == 'anchor':
            continue
        for x in obs_b:
            x.detail = '[on the view with helper functions inlined] ' + (x.detail or '')
            out.append(x)
    rep.obs = out
    rep.extra['second_opinion'] = {'inlined_functions': len([1 for f in progb.fns.values() if getattr(f, 'inlined', None)]),
                                   'violations_resolved_by_inlined_view': [o.key for o in resolved]}
    return rep


def main(argv=None):
    ap = argparse.ArgumentParser()
    ap.add_argument('pid')
    ap.add_argument('--tier', default=os.environ.get('VERIF_TIER', 'quick'), choices=['quick', 'thorough'])
    ap.add_argument('--replay')
    ap.add_argument('--repo', default=facts.REPO)
    ap.add_argument('--no-evidence', action='store_true')
    ap.add_argument('--no-selftest', action='store_true', help='thorough tier without the mutant/benign self-test (development aid)')
    ap.add_argument('--json', action='store_true', help='print the obligations as JSON (used by the self-test)')
    args = ap.parse_args(argv)
    pid = args.pid.upper()
    if pid not in PROPS:
        print('unknown or not-applicable property %s (claimed: %s)' % (pid, ', '.join(sorted(PROPS))))
        return 2
    t0 = time.time()
    seed = int(os.environ.get('VERIF_SEED', '0') or 0)
    if args.replay:
        return replay(pid, args.replay, args.repo)

    configs = ['default'] if args.tier == 'quick' else ['default', 'wasm', 'allfeatures']
    all_obs = []
    reports = {}
    cov = {'configs': [], 'crates': [], 'bodies_analysed': 0}
    mod = None
    fatal = None
    try:
        for cfg in configs:
            fdir = facts.ensure(cfg, args.repo)
            prog = mir.Program(fdir)
            nb = len(prog.product_fns())
            floor = {'default': 900, 'wasm': 400, 'allfeatures': 800}[cfg]
            cov['configs'].append({'config': cfg, 'bodies': nb, 'crates': prog.crates(), 'fact_files': prog.files})
            cov['bodies_analysed'] += nb
            cov['crates'] = sorted(set(cov['crates']) | set(prog.crates()))
            rep, mod = run_property(pid, prog, cfg, args.tier)
            stolen_fns = [n for (c, n) in prog.stolen if 'CALLSITE' not in n]
            if stolen_fns:
                rep.violation('floor', 'stolen-bodies:%s' % cfg, detail='MIR of %d bodies was not available to the exporter (e.g. %s); '
                              'the analysis would be incomplete' % (len(stolen_fns), stolen_fns[0]))
            if nb < floor:
                rep.violation('floor', 'bodies<%d:%s' % (floor, cfg), detail='only %d bodies analysed in config %s' % (nb, cfg))
            reports[cfg] = rep
            all_obs.extend(rep.obs)
    except Exception as e:  # fail closed
        traceback.print_exc()
        fatal = '%s: %s' % (type(e).__name__, e)

    extra_cov = {}
    selftest = None
    if fatal is None and mod is not None:
        # positive fixture: rules that could pass vacuously must fire on the fixture crate every run
        if hasattr(mod, 'fixture'):
            try:
                fx = mod.fixture()
                extra_cov['fixture'] = fx
                if not fx.get('ok'):
                    o = Ob('fixture', '%s|fixture|positive-example' % pid, VIOLATION,
                           detail='checker self-check failed: positive fixture did not produce the expected reports: %s' % fx)
                    all_obs.append(o)
            except Exception as e:
                traceback.print_exc()
                fatal = 'fixture: %s: %s' % (type(e).__name__, e)
        if args.tier == 'thorough' and not args.no_selftest:
            try:
                import selftest as st
                selftest = mod.thorough(args.repo) if hasattr(mod, 'thorough') else st.run_for(pid, args.repo)
                extra_cov['selftest'] = selftest
                for bad in selftest.get('failures', []):
                    all_obs.append(Ob('selftest', '%s|selftest|%s' % (pid, bad), VIOLATION,
                                      detail='checker self-test failed: %s' % bad))
                if hasattr(mod, 'extra_thorough'):
                    ex = mod.extra_thorough(args.repo)
                    extra_cov['extra_thorough'] = ex
                    for bad in ex.get('failures', []):
                        all_obs.append(Ob('selftest', '%s|witness|%s' % (pid, bad[:80]), VIOLATION, detail='witness harness failed: %s' % bad))
            except Exception as e:
                traceback.print_exc()
                fatal = 'thorough: %s: %s' % (type(e).__name__, e)

    # de-duplicate obligations across configurations by key (worst verdict wins)
    rank = {VIOLATION: 3, REVIEWED: 2, OK: 1, INFO: 0}
    by_key = {}
    for o in all_obs:
        cur = by_key.get(o.key)
        if cur is None or rank[o.status] > rank[cur.status]:
            by_key[o.key] = o
    obs = list(by_key.values())

    known = [k for k in load_known() if k.get('property') == pid and k.get('status') == 'known']
    known_keys = {k['key']: k for k in known}
    # R5a names the operation a value comes from (`unwrap<Pos>@div#1`); the same site re-written to call a helper that divides
    # (`@to_decimal#1`) is the same finding
    for k in known:
        if '|R5a|' in k['key']:
            known_keys.setdefault(re.sub(r'@[^|@]*(?=(\|quotient-may-underflow)?$)', '@*', k['key']), k)
    viol = [o for o in obs if o.status == VIOLATION]
    def is_known(o):
        return o.key in known_keys or ('|R5a|' in o.key and re.sub(r'@[^|@]*(?=(\|quotient-may-underflow)?$)', '@*', o.key) in known_keys)
    new_viol = [o for o in viol if not is_known(o)]
    kf = [o for o in viol if is_known(o)]

    vdir = os.path.join(VERIF, 'evidence', 'violations')
    os.makedirs(vdir, exist_ok=True)
    for fn in os.listdir(vdir):
        if fn.startswith(pid + '-'):
            os.remove(os.path.join(vdir, fn))
    lines = []
    for o in kf:
        lines.append('KNOWN-FINDING: property=%s %s %s' % (pid, o.key, (known_keys.get(o.key) or known_keys[re.sub(r'@[^|@]*(?=(\|quotient-may-underflow)?$)', '@*', o.key)]).get('what', o.detail)))
    for n, o in enumerate(new_viol):
        path = os.path.join(vdir, '%s-%d.json' % (pid, n))
        with open(path, 'w') as f:
            json.dump({'property': pid, 'obligation': o.to_json(), 'repo': args.repo}, f, indent=1)
        lines.append('  violation: %s\n    at %s in %s\n    %s' % (o.key, o.where, o.fn, o.detail))
        lines.append('VIOLATION property=%s replay=%s' % (pid, path))
    if fatal is not None:
        path = os.path.join(vdir, '%s-fatal.json' % pid)
        with open(path, 'w') as f:
            json.dump({'property': pid, 'fatal': fatal}, f, indent=1)
        lines.append('  checker could not complete: %s' % fatal)
        lines.append('VIOLATION property=%s replay=%s' % (pid, path))

    n_ob = len([o for o in obs if o.status != INFO])
    n_ok = len([o for o in obs if o.status in (OK, REVIEWED)])
    n_rev = len([o for o in obs if o.status == REVIEWED])
    wall = time.time() - t0
    level = getattr(mod, 'LEVEL', 'other') if mod else 'other'
    if not args.no_evidence:
        write_evidence(pid, args, seed, level, mod, obs, reports, cov, extra_cov, n_ob, n_ok, n_rev, viol, kf, wall, fatal)

    if args.json:
        print(json.dumps([o.to_json() for o in obs], indent=1))
    print('%s tier=%s: %d obligations, %d discharged (%d by reviewed table entry), %d violations (%d known findings) in %.1fs'
          % (pid, args.tier, n_ob, n_ok, n_rev, len(viol), len(kf), wall))
    for l in lines:
        print(l)
    return 1 if (new_viol or fatal) else 0


def write_evidence(pid, args, seed, level, mod, obs, reports, cov, extra_cov, n_ob, n_ok, n_rev, viol, kf, wall, fatal):
    by_rule = {}
    for o in obs:
        r = by_rule.setdefault(o.rule, {'instances': 0, 'discharged': 0, 'by_review': 0, 'violations': 0, 'info': 0})
        if o.status == INFO:
            r['info'] += 1
            continue
        r['instances'] += 1
        if o.status in (OK, REVIEWED):
            r['discharged'] += 1
        if o.status == REVIEWED:
            r['by_review'] += 1
        if o.status == VIOLATION:
            r['violations'] += 1
    nontrivial = len({o.key for o in obs if o.status != INFO and not o.trivial})
    samples = []
    seen_rules = collections_counter()
    for o in obs:
        if o.status == INFO:
            continue
        if seen_rules[o.rule] < 4 or o.status != OK:
            seen_rules[o.rule] += 1
            samples.append(o.to_json())
    samples = samples[:80]
    anchors = {}
    notes = []
    for cfg, rep in reports.items():
        for k, v in rep.anchors.items():
            anchors.setdefault(k, v)
        for n in rep.notes:
            if n not in notes:
                notes.append(n)
        for k, v in rep.extra.items():
            extra_cov.setdefault(k, v)
    cmd = './check %s --tier %s' % (pid, args.tier)
    coverage = {
        'explanation': (getattr(mod, 'EXPLANATION', '') if mod else '') or 'static rules over type-checked MIR',
        'obligations': n_ob,
        'discharged': n_ok,
        'discharged_by_review': n_rev,
        'evaluations': max(n_ob, 1),
        'distinct_nontrivial': nontrivial,
        'rule': 'one obligation per rule instance found in the MIR of the current tree (call site, loop, aggregate, constant, '
                'impl); non-trivial = not discharged by the trivial branch of its rule; distinct = distinct key',
        'exhaustive': True,
        'checker_cmd': cmd,
        'trusted_base': getattr(mod, 'TRUSTED_BASE', []) if mod else [],
        'per_rule': by_rule,
        'anchors_resolved': anchors,
        'reviewed_entries': [o.to_json() for o in obs if o.status == REVIEWED],
        'known_findings_matched': [o.key for o in kf],
        'violations_found': [o.to_json() for o in viol],
        'info': [o.to_json() for o in obs if o.status == INFO][:60],
        'notes': notes,
        'samples': samples,
    }
    coverage.update(cov)
    coverage.update(extra_cov)
    if fatal:
        coverage['fatal'] = fatal
    ev = {
        'property_id': pid,
        'tier': args.tier,
        'seed': seed,
        'level': level,
        'coverage': coverage,
        'assumptions': getattr(mod, 'ASSUMPTIONS', []) if mod else [],
        'wall_s': round(wall, 2),
        'violations': len(viol) - len(kf) + (1 if fatal else 0),
    }
    os.makedirs(os.path.join(VERIF, 'evidence'), exist_ok=True)
    tmp = os.path.join(VERIF, 'evidence', '.%s.json.tmp' % pid)
    with open(tmp, 'w') as f:
        json.dump(ev, f, indent=1, sort_keys=False)
    os.replace(tmp, os.path.join(VERIF, 'evidence', '%s.json' % pid))


def collections_counter():
    import collections
    return collections.Counter()


def replay(pid, path, repo):
    with open(path) as f:
        d = json.load(f)
    if 'fatal' in d:
        print('fatal checker error recorded: %s' % d['fatal'])
        return 1
    o = d['obligation']
    print('replaying %s' % o['key'])
    fdir = facts.ensure(o.get('config') or 'default', repo)
    prog = mir.Program(fdir)
    rep, _ = run_property(pid, prog, o.get('config') or 'default', 'quick')
    hit = [x for x in rep.obs if x.key == o['key'] and x.status == VIOLATION]
    for x in hit:
        print('  still violated: %s at %s in %s\n    %s' % (x.key, x.where, x.fn, x.detail))
        f = prog.fn(x.fn)
        if f is not None:
            mir.show(f)
    if hit:
        print('VIOLATION property=%s replay=%s' % (pid, path))
        return 1
    print('  not reproduced on the current tree')
    return 0


if __name__ == '__main__':
    sys.exit(main())
