#!/bin/sh
# Builds the analysis driver and warms the dependency cache of the analysis target dir (offline).
set -e
DIR="$(cd "$(dirname "$0")" && pwd)"
cd "$DIR"
export CARGO_NET_OFFLINE=true
python3 - <<'PY'
import sys
sys.path.insert(0, 'lib')
import facts
facts.build_driver()
print(facts.ensure("default"))
print(facts.ensure_fixture())
PY
